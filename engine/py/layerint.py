"""Whole-layer evaluation of the segment-compression layer (C12-LAYER, C04-D10).

vecint.VecInterp plus the pieces the layer above the tuple packer needs:
  * the ZSTD entry points of zstd_pool are taken as a lossless pair (compress = decompress = identity on the byte
    string; that they are inverse to each other is the library's contract, and the context handling around them is
    decided by C04-D5 / C12-ZBUF);
  * the debug switches of env_cache are off (their value only selects diagnostics);
  * `thread_local!` keys: `LocalKey::with` runs the closure on a per-key state object kept in `world["tls"]`, so a
    caller can start an evaluation with the state a *previous* work item of the same thread left behind;
  * RefCell borrow / borrow_mut and the guards' Deref.
Everything else fails closed (Undecidable).
"""
import re

from absint import Undecidable, Panic
from vecint import VecInterp

LOCALKEY = "std::thread::local::LocalKey<"


def ok(v):
    return {"__adt": "core::result::Result", "__var": "Ok", 0: v, "0": v}


def tls_keys(F):
    """thread_local! keys declared in the analysed crates: {item: payload type}"""
    out = {}
    for k, c in F.consts.items():
        ty = c.get("ty", "")
        if ty.startswith(LOCALKEY):
            out[k] = ty[len(LOCALKEY):-1]
    return out


def tls_key_of_operand(F, func, o, depth=0):
    """the thread_local key a `&LocalKey<..>` operand designates (through a promoted or a local copy), or None"""
    if o.get("k") == "const":
        if "LocalKey<" not in o.get("ty", ""):
            return None
        if "promoted" in o:
            pf = F.funcs.get("%s::{promoted#%d}" % (o["item"], o["promoted"]))
            if pf is None:
                return None
            for b in pf.blocks:
                for s in b["stmts"]:
                    if s["k"] == "assign" and s["rv"]["k"] == "use" and s["rv"]["op"].get("k") == "const":
                        it = s["rv"]["op"].get("item")
                        if it in F.consts and F.consts[it].get("ty", "").startswith(LOCALKEY):
                            return it
            return None
        it = o.get("item")
        if it in F.consts and F.consts[it].get("ty", "").startswith(LOCALKEY):
            return it
        return None
    if o.get("k") in ("copy", "move") and depth < 4 and "LocalKey<" in o["pl"].get("ty", ""):
        l = o["pl"]["l"]
        for b in func.blocks:
            for s in b["stmts"]:
                if s["k"] == "assign" and s["pl"]["l"] == l and not s["pl"]["p"]:
                    rv = s["rv"]
                    if rv["k"] == "use":
                        return tls_key_of_operand(F, func, rv["op"], depth + 1)
                    if rv["k"] == "ref":
                        return tls_key_of_operand(F, func, {"k": "copy", "pl": {"l": rv["pl"]["l"], "p": [], "ty": rv["pl"].get("ty", "LocalKey<")}}, depth + 1) \
                            if "LocalKey<" in rv["pl"].get("ty", "") else None
    return None


class LayerInterp(VecInterp):
    def __init__(self, F, max_steps=400000, depth=0, cparams=None):
        VecInterp.__init__(self, F, max_steps, depth, cparams)
        self.world = None

    def operand(self, o):
        if o.get("k") == "const" and "LocalKey<" in o.get("ty", ""):
            k = tls_key_of_operand(self.F, self.func, o)
            if k is None:
                raise Undecidable("thread-local key behind %s" % o.get("ty"))
            return ("tls", k)
        return VecInterp.operand(self, o)

    def rvalue(self, rv):
        if rv["k"] == "discr":
            v = self.target(self.read_place(rv["pl"]))
            if isinstance(v, dict) and v.get("__adt") == "core::ops::control_flow::ControlFlow":
                return 0 if v["__var"] == "Continue" else 1
        if rv["k"] in ("ref", "rawptr") and rv["pl"]["p"] == ["deref"]:
            v = self.env.get(rv["pl"]["l"])
            if isinstance(v, tuple) and v and v[0] == "tls":
                return v
        return VecInterp.rvalue(self, rv)

    def target(self, v):
        if isinstance(v, tuple) and v and v[0] == "tls":
            return v
        return VecInterp.target(self, v)

    def tls_state(self, key):
        w = self.world
        if w is None:
            raise Undecidable("thread-local %s used outside a modelled world" % key)
        st = w.setdefault("tls", {})
        if key not in st:
            payload = tls_keys(self.F).get(key, "")
            if re.search(r"^core::cell::RefCell<zstd_safe::[CD]Ctx\b", payload):
                st[key] = {"__refcell": {"__zctx": 1}, "borrowed": 0}      # an opaque compression context (its parameters are D8's business)
                return st[key]
            if payload.startswith("core::cell::once::OnceCell<"):
                st[key] = {"__oncecell": None}          # set once per thread, then read for ever
                w.setdefault("tls_used", set()).add(key)
                return st[key]
            m = re.fullmatch(r"core::cell::RefCell<alloc::vec::Vec<(u8|u32|u64|usize)>>", payload)
            if not m:
                raise Undecidable("thread-local %s of type %s is not a modelled buffer" % (key, payload))
            init = w.get("tls_init", {}).get(key, [])
            st[key] = {"__refcell": list(init), "borrowed": 0}
        w.setdefault("tls_used", set()).add(key)
        return st[key]

    def call_closure(self, clo, args):
        if not (isinstance(clo, dict) and "__closure" in clo):
            raise Undecidable("not a closure: %r" % (clo,))
        f = self.F.funcs.get(clo["__closure"])
        if f is None:
            raise Undecidable("closure body %s missing" % clo["__closure"])
        if self.depth > 8:
            raise Undecidable("call depth")
        sub = type(self)(self.F, self.max_steps, self.depth + 1, dict(self.cparams))
        sub.world = self.world
        # FnOnce closures take themselves by value, Fn / FnMut by reference: both read captures through the same dict
        return sub.call(f, [clo] + list(args))

    def do_call(self, t):
        if t.get("indirect"):
            raise Undecidable("indirect call")
        c = t["callee"]
        if c in ("ragc_core::zstd_pool::compress_segment_pooled", "ragc_core::zstd_pool::decompress_segment_pooled"):
            data = self.target(self.operand(t["args"][0]))
            if not isinstance(data, list):
                raise Undecidable("zstd entry point on something that is not a byte vector")
            if self.world is not None:
                self.world.setdefault("zstd_calls", []).append((c.rsplit("::", 1)[-1], list(data)))
            # first the body itself, with the library's primitives taken as a lossless pair (compress = copy into the destination,
            # decode = copy): scratch buffers and thread-locals around the primitives are then part of the evaluation
            try:
                return VecInterp.do_call(self, t)
            except Undecidable as e:
                if self.world is not None:
                    self.world.setdefault("zstd_body_undecided", set()).add(str(e))
                return ok(list(data))
        if re.search(r"^zstd_safe::compress_bound$", c):
            n_ = self.target(self.operand(t["args"][0]))
            if not isinstance(n_, int):
                raise Undecidable("compress_bound of a non-integer")
            return n_ + 64
        if re.search(r"^zstd_safe::CCtx::<'\w+>::(compress|compress2)$", c):
            a_ = [self.target(self.operand(x)) for x in t["args"]]
            dst, src = a_[1], a_[2]
            if not (isinstance(dst, list) and isinstance(src, list)):
                raise Undecidable("zstd compress on unmodelled buffers")
            n_ = len(src)
            dst_is_vec = any(g.startswith("alloc::vec::Vec<") for g in (t.get("gargs") or []))
            if len(dst) < n_:
                if dst_is_vec:
                    raise Undecidable("capacity of a vector shorter than the input is not tracked")
                return {"__adt": "core::result::Result", "__var": "Err", 0: 70, "0": 70}      # dstSize_tooSmall
            for i_ in range(n_):
                dst[i_] = src[i_]
            if dst_is_vec:
                del dst[n_:]          # WriteBuf for Vec<u8>: the length becomes what was written
            return ok(n_)
        if re.search(r"^zstd_safe::[CD]Ctx::<'\w+>::(set_parameter|reset|load_dictionary|set_pledged_src_size)$", c):
            return ok(0)
        if re.search(r"^zstd::(stream::)?(functions::)?decode_all$|^zstd::bulk::decompress$", c):
            src = self.target(self.operand(t["args"][0]))
            if isinstance(src, dict) and "__reader" in src:
                src = src["__reader"]
            if not isinstance(src, list):
                raise Undecidable("zstd decode of an unmodelled source")
            return ok(list(src[:]))
        if re.search(r"^zstd_safe::get_error_name$", c):
            return "zstd error"
        if re.search(r"core::result::Result::<T, E>::map_err$", c):
            r_ = self.target(self.operand(t["args"][0]))
            if isinstance(r_, dict) and r_.get("__adt") == "core::result::Result":
                if r_.get("__var") == "Ok":
                    return r_
                return {"__adt": "core::result::Result", "__var": "Err", 0: "error value", "0": "error value"}
        if c.startswith("ragc_core::env_cache::"):
            f = self.F.funcs.get(c)
            if f is not None and f.d.get("ret", "bool") in ("bool", None) or c.rsplit("::", 1)[-1].startswith(("debug_", "trace_", "test_", "assert_verbose")):
                return 0
        if re.search(r"thread::local::LocalKey::<[^>]*(<[^>]*>)?>::(with|with_borrow|with_borrow_mut)$", c):
            key = self.operand(t["args"][0])
            if not (isinstance(key, tuple) and key and key[0] == "tls"):
                raise Undecidable("LocalKey::with on an unknown key")
            st = self.tls_state(key[1])
            clo = self.operand(t["args"][1])
            if c.endswith("::with"):
                return self.call_closure(clo, [("refval", st)])
            if "__refcell" not in st:
                raise Undecidable("with_borrow on a thread-local that is not a RefCell")
            return self.call_closure(clo, [("refval", st["__refcell"])])
        if re.search(r"cell::once::OnceCell::<T>::(get_or_init|get)$", c):
            cell = self.target(self.operand(t["args"][0]))
            if not (isinstance(cell, dict) and "__oncecell" in cell):
                raise Undecidable("OnceCell that is not a modelled thread-local")
            if c.endswith("::get"):
                from vecint import some, NONE
                return some(("refval", cell["__oncecell"])) if cell["__oncecell"] is not None else dict(NONE)
            if cell["__oncecell"] is None:
                a1 = t["args"][1]
                if a1.get("k") == "const" and "fn" in a1:
                    f = self.F.funcs.get(a1["fn"])
                    if f is None or f.crate not in ("ragc_core", "ragc_common"):
                        raise Undecidable("initialiser %s" % a1["fn"])
                    cp = {}
                    gens = f.d.get("generics") or []
                    m = re.search(r"::<([^<>]*)>$", a1.get("fn_disp", ""))
                    toks = [x.strip() for x in m.group(1).split(",")] if m else []
                    if len(toks) != len(gens):
                        raise Undecidable("generic arguments of %s" % a1.get("fn_disp"))
                    for name, g in zip(gens, toks):
                        mm = re.fullmatch(r"(-?\d+)(_\w+)?", g)
                        if mm:
                            cp[name] = int(mm.group(1))
                        elif g in self.cparams:
                            cp[name] = self.cparams[g]
                        else:
                            raise Undecidable("generic argument %s is not bound" % g)
                    sub = type(self)(self.F, self.max_steps, self.depth + 1, cp)
                    sub.world = self.world
                    cell["__oncecell"] = sub.call(f, [])
                else:
                    cell["__oncecell"] = self.call_closure(self.operand(a1), [])
            return ("refval", cell["__oncecell"])
        if re.search(r"cell::RefCell::<T>::(borrow_mut|borrow)$", c):
            cell = self.target(self.operand(t["args"][0]))
            if not (isinstance(cell, dict) and "__refcell" in cell):
                raise Undecidable("borrow of something that is not a modelled RefCell")
            return {"__guard": cell["__refcell"]}
        if re.search(r"cell::Ref(Mut)?<'\w+, T> as core::ops::deref::Deref(Mut)?>::deref(_mut)?$|Deref(Mut)? for core::cell::Ref(Mut)?<'?\w*,? ?T>>::deref(_mut)?$", c):
            g = self.target(self.operand(t["args"][0]))
            if isinstance(g, dict) and "__guard" in g:
                return ("refval", g["__guard"])
            raise Undecidable("deref of an unknown guard")
        if c.endswith("ops::try_trait::Try>::branch") or t.get("decl", "").endswith("ops::try_trait::Try::branch"):
            r = self.target(self.operand(t["args"][0]))
            if isinstance(r, dict) and r.get("__adt") == "core::result::Result":
                if r["__var"] == "Ok":
                    v_ = r.get(0, r.get("0"))
                    return {"__adt": "core::ops::control_flow::ControlFlow", "__var": "Continue", 0: v_, "0": v_}
                return {"__adt": "core::ops::control_flow::ControlFlow", "__var": "Break", 0: r, "0": r}
            raise Undecidable("? on %r" % (r,))
        if t.get("decl", "").endswith("ops::try_trait::FromResidual::from_residual"):
            return self.target(self.operand(t["args"][0]))
        return VecInterp.do_call(self, t)
