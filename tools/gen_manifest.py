#!/usr/bin/env python3
"""Regenerates MANIFEST.json from tools/manifest_src.py (single source for per-check text)."""
import json, os, sys
HERE = os.path.dirname(os.path.abspath(__file__))
sys.path.insert(0, HERE)
import manifest_src as S
checks = []
for pid in sorted(S.CHECKS):
    c = S.CHECKS[pid]
    checks.append({
        "property_id": pid,
        "quick_cmd": "./check %s --tier quick" % pid,
        "thorough_cmd": "./check %s --tier thorough" % pid,
        "evidence_file": "/verif/evidence/%s.json" % pid,
        "replay_cmd_template": "./check %s --explain {path}" % pid,
        "engine": "ragc-facts+rules",
        "level_claimed": {"category": "other", "text": c["text"], "design_ref": c["ref"]},
        "level_note": c["note"],
        "technique": c["technique"],
    })
m = {
    "version": 1,
    "setup_cmd": "./setup.sh",
    "hooks": {
        "guard": "ragc_verif",
        "enable": "none needed: the extractor observes the unmodified build through the compiler (RUSTC_WORKSPACE_WRAPPER); no source hooks exist",
        "baseline_off_cmd": "cd /repo && cargo test --workspace --no-fail-fast --offline",
        "source_commits": [],
        "add_only": True,
    },
    "engines": [
        {"name": "ragc-facts+rules", "path": "/verif/engine",
         "serves_properties": sorted(S.CHECKS),
         "kind_free_text": "custom rustc_private driver (engine/driver) dumping type-resolved MIR/ADT/const facts of the real cargo build graph; python3 rule library (engine/py) with CFG/dominators/path enumeration/expression reconstruction/call graph; per-property rules in engine/py/rules"},
    ],
    "checks": checks,
    "not_applicable": [{"property_id": k, "reason": v} for k, v in sorted(S.NOT_APPLICABLE.items())],
    "notes": S.NOTES,
}
json.dump(m, open(os.path.join(os.path.dirname(HERE), "MANIFEST.json"), "w"), indent=1)
print("checks:", [c["property_id"] for c in checks], "n/a:", sorted(S.NOT_APPLICABLE))
