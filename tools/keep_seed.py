#!/usr/bin/env python3
"""Development tool: file a confirmed seeded change under /verif/seeded/<name>/.
   tools/keep_seed.py C06 "<what I ran / observed>" "C06-Q6,C06-Q8" [name]"""
import json, os, shutil, sys
pid, ran, caught = sys.argv[1], sys.argv[2], sys.argv[3]
name = sys.argv[4] if len(sys.argv) > 4 else pid
src = os.environ.get("SEED_SRC", "/tmp/seeded_out") + "/" + pid
dst = "/verif/seeded/" + name
os.makedirs(dst, exist_ok=True)
for f in os.listdir(src):
    if f in ("patch.diff", "demo.sh", "demo_test.rs", "meta.json") or f.endswith(".rs") or f.endswith(".py"):
        shutil.copy(os.path.join(src, f), os.path.join(dst, f))
m = json.load(open(os.path.join(dst, "meta.json")))
m["property"] = pid
m["confirmed"] = ran
m["caught_by"] = [c for c in caught.split(",") if c]
json.dump(m, open(os.path.join(dst, "meta.json"), "w"), indent=1)
print("kept", dst, sorted(os.listdir(dst)))
