#!/bin/bash
# Development tool: apply a seeded patch to /repo, run every check (quick), undo the patch.
#   tools/try_seed.sh <patch.diff> [ids...]
P=$1; shift; IDS=${@:-C01 C02 C03 C04 C05 C06 C08 C09 C10 C11 C12 C13 C14 C15 C16 C17 C18 C19 C20}
cd /verif
git -C /repo apply $P || { echo "patch does not apply"; exit 2; }
for id in $IDS; do
  out=$(./check $id 2>&1); rc=$?
  if [ $rc -ne 0 ]; then echo "[$id] exit=$rc"; echo "$out" | grep -v "^VIOLATION\|^KNOWN" | sed -n 2,7p | cut -c1-230; fi
done
git -C /repo checkout -- . ; git -C /repo status --short | head -3
