#!/usr/bin/env python3
"""Development tool (not a registered command): run checks against a mutated scratch copy of /repo.

  tools/mutate.py C06[,C05] --sub FILE 'old text' 'new text' [--sub ...]   inline textual mutation
  tools/mutate.py C06 --subn FILE N 'old' 'new'     replace the N-th occurrence (1-based)
  tools/mutate.py C06 --patch some.diff                                     git-apply style patch
The scratch copy lives under /tmp/ragc_mut/repo and is removed afterwards."""
import os, shutil, subprocess, sys

SCRATCH = "/tmp/ragc_mut"
REPO = "/repo"
VERIF = os.path.dirname(os.path.dirname(os.path.abspath(__file__)))

def main():
    a = sys.argv[1:]
    pids = a[0].split(",")
    subs, patches = [], []
    i = 1
    keep = False
    while i < len(a):
        if a[i] == "--sub":
            subs.append((a[i+1], a[i+2], a[i+3])); i += 4
        elif a[i] == "--subn":
            subs.append((a[i+1], a[i+3], a[i+4], int(a[i+2]))); i += 5
        elif a[i] == "--re":
            subs.append((a[i+1], a[i+2], a[i+3], "re")); i += 4
        elif a[i] == "--patch":
            patches.append(a[i+1]); i += 2
        elif a[i] == "--keep":
            keep = True; i += 1
        else:
            i += 1
    if os.path.exists(SCRATCH):
        shutil.rmtree(SCRATCH)
    os.makedirs(SCRATCH)
    dst = os.path.join(SCRATCH, "repo")
    subprocess.check_call(["rsync", "-a", "--exclude", "target", "--exclude", ".git", REPO + "/", dst + "/"])
    try:
        for sub in subs:
            f, old, new = sub[:3]
            nth = sub[3] if len(sub) > 3 else None
            p = os.path.join(dst, f)
            t = open(p).read()
            if nth == "re":
                import re
                t2, n = re.subn(old, new, t)
                if n == 0:
                    print("MUTATION ERROR: regex %r matches nothing in %s" % (old, f)); return 3
                open(p, "w").write(t2)
            elif nth is None:
                if t.count(old) != 1:
                    print("MUTATION ERROR: %r occurs %d times in %s" % (old[:80], t.count(old), f)); return 3
                open(p, "w").write(t.replace(old, new))
            else:
                idx = -1
                for _ in range(nth):
                    idx = t.find(old, idx + 1)
                    if idx < 0:
                        print("MUTATION ERROR: occurrence %d of %r not found in %s" % (nth, old[:80], f)); return 3
                open(p, "w").write(t[:idx] + new + t[idx + len(old):])
        for pt in patches:
            r = subprocess.run(["git", "apply", "--directory", "", os.path.abspath(pt)], cwd=dst)
            if r.returncode != 0:
                r = subprocess.run(["patch", "-p1", "-i", os.path.abspath(pt)], cwd=dst)
                if r.returncode != 0:
                    print("PATCH ERROR"); return 3
        env = dict(os.environ, VERIF_REPO=dst)
        rc = 0
        for pid in pids:
            r = subprocess.run([os.path.join(VERIF, "check"), pid], env=env, cwd=VERIF, stdout=subprocess.PIPE, text=True)
            out = r.stdout
            lines = out.splitlines()
            print("[%s] exit=%d" % (pid, r.returncode))
            for l in lines[:1] + [x for x in lines[1:] if not x.startswith("VIOLATION")][:14]:
                print("   " + l[:260])
            rc = max(rc, r.returncode)
        return rc
    finally:
        if not keep:
            shutil.rmtree(SCRATCH, ignore_errors=True)

sys.exit(main())
