#!/usr/bin/env python3
"""Development tool (not a registered command): run every seeded mutant of selftest/mutants.py
against a scratch copy of /repo and compare with the expectation.

  tools/selftest.py [name-substring ...]        e.g. tools/selftest.py c06 c13-varint
Scratch copies live under /tmp/ragc_selftest and are removed after each mutant."""
import os, shutil, subprocess, sys, time
HERE = os.path.dirname(os.path.abspath(__file__))
VERIF = os.path.dirname(HERE)
sys.path.insert(0, os.path.join(VERIF, "selftest"))
from mutants import MUTANTS
SCRATCH = "/tmp/ragc_selftest_%d" % os.getpid()      # per process: two runs must not share a scratch copy
REPO = "/repo"

def apply(dst, subs):
    if isinstance(subs, str):
        # a patch file under selftest/ (multi-hunk changes)
        r = subprocess.run(["git", "apply", os.path.abspath(os.path.join(VERIF, "selftest", subs))], cwd=dst, stdout=subprocess.PIPE, stderr=subprocess.STDOUT, text=True)
        return None if r.returncode == 0 else "patch %s does not apply: %s" % (subs, r.stdout[:200])
    for f, nth, old, new in subs:
        p = os.path.join(dst, f)
        t = open(p).read()
        if nth == "re":
            import re
            t2, n = re.subn(old, new, t)
            if n == 0:
                return "regex %r matches nothing in %s" % (old, f)
            open(p, "w").write(t2)
            continue
        idx = -1
        for _ in range(nth):
            idx = t.find(old, idx + 1)
            if idx < 0:
                return "occurrence %d of %r not found in %s" % (nth, old[:60], f)
        open(p, "w").write(t[:idx] + new + t[idx + len(old):])
    return None

def seed_mutants():
    """every kept seeded change, run against the check of its own property"""
    import json, glob
    out = []
    for d in sorted(glob.glob(os.path.join(VERIF, "seeded", "*", "meta.json"))):
        name = os.path.basename(os.path.dirname(d))
        m = json.load(open(d))
        pid = m.get("property", name[:3])
        out.append(("seed-" + name, pid, os.path.join("..", "seeded", name, "patch.diff"), "fire", pid + "-"))
    return out


def main():
    want = sys.argv[1:]
    pool = MUTANTS
    if want and want[0] == "--seeds":
        pool = seed_mutants()
        want = want[1:]
    todo = [m for m in pool if not want or any(w in m[0] for w in want)]
    res = []
    t0 = time.time()
    for name, pid, subs, expect, rule in todo:
        if os.path.exists(SCRATCH):
            shutil.rmtree(SCRATCH)
        os.makedirs(SCRATCH)
        dst = os.path.join(SCRATCH, "repo")
        subprocess.check_call(["rsync", "-a", "--exclude", "target", "--exclude", ".git", REPO + "/", dst + "/"])
        err = apply(dst, subs)
        if err:
            res.append((name, "STALE", err)); print("%-40s STALE   %s" % (name, err)); continue
        r = subprocess.run([os.path.join(VERIF, "check"), pid], env=dict(os.environ, VERIF_REPO=dst), cwd=VERIF, stdout=subprocess.PIPE, text=True)
        out = r.stdout
        if r.returncode == 2:
            verdict, why = "NOBUILD", out.strip().splitlines()[-1][:160] if out.strip() else ""
        elif expect == "fire":
            hit = r.returncode == 1 and any(rule in l for l in out.splitlines() if not l.startswith("VIOLATION"))
            verdict, why = ("ok" if hit else "MISSED"), ("" if hit else "exit=%d" % r.returncode)
        else:
            verdict, why = ("ok" if r.returncode == 0 else "FALSE-ALARM"), ""
            if r.returncode != 0:
                why = [l for l in out.splitlines() if "  C" in l][:1]
        res.append((name, verdict, why))
        print("%-40s %-8s %s %s" % (name, verdict, expect, why), flush=True)
        shutil.rmtree(SCRATCH, ignore_errors=True)
    bad = [r for r in res if r[1] != "ok"]
    print("\n%d mutants, %d ok, %d not ok, %.0fs" % (len(res), len(res) - len(bad), len(bad), time.time() - t0))
    return 1 if bad else 0

sys.exit(main())
