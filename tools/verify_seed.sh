#!/bin/bash
# Development tool: confirm a seeded change delivered by a sub-agent.
#   tools/verify_seed.sh C06      (expects worktree /tmp/wt_c06 and /tmp/seeded_out/C06/{patch.diff,demo.sh|demo_test.rs,meta.json})
# Checks: patch.diff applies to the pristine tree, existing suite passes with the change,
# demonstration passes WITHOUT the change and fails WITH it.  (No `git stash`: the stash stack is shared by all worktrees.)
ID=$1; n=${ID:1}; WT=${WTP:-/tmp/wt_c}$n; OUT=${OUTP:-/tmp/seeded_out}/$ID
export RUST_BACKTRACE=0 CARGO_NET_OFFLINE=true
cd $WT || exit 2
git checkout -q -- . || exit 2
git apply --check $OUT/patch.diff && echo "patch applies to the pristine tree: yes" || { echo "patch applies: NO"; exit 1; }
run_demo() {
  if [ -f $OUT/demo.sh ]; then timeout 1500 bash $OUT/demo.sh $WT >/tmp/seed_demo_$ID.log 2>&1; echo $?;
  else cp $OUT/demo_test.rs $WT/ragc-core/tests/demo_test.rs; (cd $WT && timeout 1500 cargo test --offline -p ragc-core --test demo_test >/tmp/seed_demo_$ID.log 2>&1); rc=$?; rm -f $WT/ragc-core/tests/demo_test.rs; echo $rc; fi
}
echo "demo on pristine tree: exit $(run_demo)   (want 0)"
git apply $OUT/patch.diff || exit 2
echo "demo on changed tree:  exit $(run_demo)   (want != 0)"; tail -3 /tmp/seed_demo_$ID.log | cut -c1-200
(cd $WT && timeout 1200 cargo test --workspace --no-fail-fast --offline 2>&1 | grep -E "^test result|FAILED|error(\[|:)|running for over" | awk '/test result/{p+=$4; f+=$6} /error|FAILED|running for over/{e++} END {print "existing suite with the change: passed",p,"failed",f,"errors",e+0}')
git -C $WT status --short | head -5
