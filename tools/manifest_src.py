TB = "nightly rustc MIR (mir-opt-level=0) is faithful to the stable build; std/zstd/flate2/rayon contracts; see DESIGN.md section 10"
CHECKS = {
 "C06": {
  "text": "Static monitor-discipline analysis: all paths (loops 0/1 times) of every queue operation are enumerated from MIR and checked for paired byte accounting, exactly-one insert/removal per successful call, re-tested waits, wake-ups on the right condvar, close semantics, Ord delegation and capacity-dominated admission (rules Q1-Q8). These structural conditions plus the Mutex/Condvar contract imply the property for every interleaving; the queue is not executed.",
  "ref": "DESIGN.md 4/C06", "note": TB, "technique": "static analysis: MIR path enumeration + typestate/monitor rules over a custom rustc driver's facts"},
 "C05": {
  "text": "Structural preconditions of termination decided on MIR: barrier parties / spawn loops / sync-token loops all read config.num_threads and push one zero-size token per iteration (T1); every path round the worker loop passes a constant number of Barrier::wait calls, none under a lock, with no fallible early exit inside a round (T2); finalize pushes tokens, closes, joins all; workers leave only on pull()==None (T3); the lock-order graph over all pipeline-reachable bodies has no cycle between contexts that can run concurrently (phases derived from the barrier structure) and no blocking call holds a lock the other side needs (T4); every Condvar wait predicate can be falsified by the opposite operation for every parameter value (T5). Interleavings are not explored.",
  "ref": "DESIGN.md 4/C05", "note": TB, "technique": "static analysis: barrier-phase dataflow, lock-order graph with concurrency contexts, loop-bound provenance, wait-predicate classification over MIR facts"},
 "C14": {
  "text": "Panic/allocation audit of footer location and directory parsing (Archive::open in reader mode and its callees): every overflow/bounds/division assert, file-derived allocation, unwrap/expect and file-bounded loop in the MIR must be discharged by a dominating guard (linear inequality over branch conditions), interval arithmetic or a reasoned table entry; every part range stored from the directory must be checked against the data region; every fallible read is propagated up to Decompressor::open. Holds for every truncation offset because the tail is treated as arbitrary bytes; no file is parsed.",
  "ref": "DESIGN.md 4/C14", "note": TB, "technique": "static analysis: panic-site enumeration over MIR with guard/interval discharge and result-discipline (error propagation) rules"},
 "C15": {
  "text": "Error discipline over the call graph: the set of functions that can reach a write/flush on the archive file is computed; buffering functions must be outside it; at every live call site of a writing function the Result must be propagated (never dropped, .ok()'d or only printed); finalize's Ok paths are dominated by flush_buffers then close; close/serialize flush after the footer; the CLI propagates the compressor API and main returns the Result; worker JoinHandles are joined and their inner Result propagated. Holds for every failing offset because no write result can be lost on any path; no I/O fault is injected.",
  "ref": "DESIGN.md 4/C15", "note": TB, "technique": "static analysis: effect summaries over the call graph + result-fate (error propagation) dataflow + dominance on MIR"},
 "C13": {
  "text": "Structural clauses of the container contract on MIR: ordered append-only write buffer replayed once in map order through add_part; add_part appends to the stream's part list; register_stream returns stored id or pre-push length; offset recorded before any write and every write_all(x) paired with f_offset += x.len() on all success paths; only add_part/serialize write the file; the footer serialiser's role sequence and loop nesting equals the deserialiser's; writer and reader of the big-endian length-prefixed integer agree in shape; empty parts return (empty,0) without I/O. Decides the structure that byte equality needs, not byte equality itself.",
  "ref": "DESIGN.md 4/C13", "note": TB, "technique": "static analysis: writer/reader sibling agreement over reconstructed expressions, path pairing rules, who-may-write queries on MIR"},
 "C17": {
  "text": "Rules over the CLI command bodies and their callees on MIR: no call inside a per-sample loop reaches a truncating open with a loop-invariant path (R1); every Ok return of create is dominated by a call that reaches the archive footer writer (R2); every Result in a command body or main is propagated and main returns Result (R3); the extraction loop iterates the request list or the archive-order prefix filter without reordering (R4); stdout and -o branches use the same per-sample writer (R5). Decides composition/exit-status structure; byte equality rests on C01.",
  "ref": "DESIGN.md 4/C17", "note": TB, "technique": "static analysis: effect summaries (truncating open, footer write) over the call graph, loop-invariance, result-fate and dominance rules on MIR"},
}
PENDING = "check not built yet in this session (design exists in DESIGN.md); will be claimed once its rules run"
NOT_APPLICABLE = {
 "C07": "position arithmetic over runtime segment lengths: no shape-level clause decides it with static analysis (its one structural necessary condition is reported under C01-OVL)",
}
for _p in ["C01","C02","C03","C04","C05","C08","C09","C10","C11","C12","C13","C14","C15","C16","C17","C18","C19","C20"]:
    if _p not in CHECKS:
        NOT_APPLICABLE[_p] = PENDING
NOTES = "All checks are static analyses over facts extracted from /repo's current working tree by a rustc_private driver; nothing in ragc is executed. See DESIGN.md."
