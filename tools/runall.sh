#!/bin/bash
# Development tool: every registered command (quick and thorough) on the current tree, then schema validation.
cd /verif; bad=0
for tier in quick thorough; do
  for id in C01 C02 C03 C04 C05 C06 C08 C09 C10 C11 C12 C13 C14 C15 C16 C17 C18 C19 C20; do
    out=$(./check $id --tier $tier 2>&1); rc=$?
    if [ $rc -ne 0 ] || echo "$out" | grep -q "^VIOLATION\|Traceback"; then bad=$((bad+1)); echo "[$id $tier] exit=$rc"; echo "$out" | tail -5 | cut -c1-200; fi
  done
done
tools/validate.py 2>&1 | tail -2
echo "commands with problems: $bad"
