#!/usr/bin/env python3
"""Development tool: record the parameter names of every function of the confirmed tree in
engine/tables/param_names.json.  The loader (facts.py) uses the table to present a parameter that was merely
renamed under the name the rules were written against (position-based alias), so that renaming a parameter -
which cannot change behaviour - cannot change a verdict.  Re-run after reviewing a signature change."""
import json, os, sys
HERE = os.path.dirname(os.path.abspath(__file__))
VERIF = os.path.dirname(HERE)
sys.path.insert(0, os.path.join(VERIF, "engine", "py"))
import framework as fw, facts

os.environ["VERIF_NO_PARAM_ALIAS"] = "1"
F = facts.Facts(fw.ensure_facts("dev"))
out = {}
for k, f in sorted(F.funcs.items()):
    if f.kind == "promoted":
        continue
    an = f.arg_names()
    if an:
        out[k] = [an.get(i) for i in range(1, f.d["arg_count"] + 1)]
p = os.path.join(VERIF, "engine", "tables", "param_names.json")
with open(p, "w") as fh:
    json.dump({"_comment": "parameter names by position on the confirmed tree (see tools/freeze_params.py)", "functions": out}, fh, indent=0, sort_keys=True)
print("froze parameter names of %d functions" % len(out))
