#!/usr/bin/env python3
"""Development tool (not a registered command): alpha-rename local variables in a scratch copy of /repo and
run the checks on it.  A rename of locals cannot change behaviour, so every check must stay at exit 0: any
report is a false alarm caused by a rule that leans on a variable's name.

  tools/alpha_rename.py [--params] [--only REGEX-on-owner] [--suffix _rn] [--keep] [IDS ...]

The exact byte ranges of every binding and use come from the fact extractor (RAGC_RENAME_DIR mode, HIR
resolution), so shadowing, closures captures and struct shorthand (`S { x }` -> `S { x: x_rn }`) are handled.
Bindings with a use inside a macro expansion (inline format captures) are left alone."""
import glob, json, os, re, shutil, subprocess, sys
HERE = os.path.dirname(os.path.abspath(__file__))
VERIF = os.path.dirname(HERE)
sys.path.insert(0, os.path.join(VERIF, "engine", "py"))
import framework as fw

SCRATCH = "/tmp/ragc_alpha"
ALL = "C01 C02 C03 C04 C05 C06 C08 C09 C10 C11 C12 C13 C14 C15 C16 C17 C18 C19 C20".split()


def main():
    args = sys.argv[1:]
    params = "--params" in args
    noise = "--noise" in args          # also insert a no-op call in front of every statement
    norename = "--no-rename" in args
    invert = "--invert-ifs" in args    # `if c {A} else {B}` -> `if !(c) {B} else {A}` (innermost ifs only; exclusive with the other modes)
    if invert:
        norename, noise = True, False
    branchy = 0                         # --branchy N: every Nth inserted statement is a guarded diagnostic print instead
    if "--branchy" in args:
        branchy = int(args[args.index("--branchy") + 1])
    keep = "--keep" in args
    only = None
    suffix = "_rn"
    ids = []
    i = 0
    while i < len(args):
        a = args[i]
        if a == "--only":
            only = re.compile(args[i + 1]); i += 1
        elif a == "--suffix":
            suffix = args[i + 1]; i += 1
        elif a == "--branchy":
            i += 1
        elif not a.startswith("--"):
            ids.append(a)
        i += 1
    ids = ids or ALL
    if os.path.exists(SCRATCH):
        shutil.rmtree(SCRATCH)
    os.makedirs(SCRATCH)
    dst = os.path.join(SCRATCH, "repo")
    subprocess.check_call(["rsync", "-a", "--exclude", "target", "--exclude", ".git", "/repo/", dst + "/"])
    rdir = os.path.join(SCRATCH, "rename")
    os.makedirs(rdir)
    fw.ensure_driver()
    tdir = os.path.join(fw.CACHE, "target", "rename")
    os.makedirs(tdir, exist_ok=True)
    for m in fw.MEMBERS:
        for p in glob.glob(os.path.join(tdir, "debug", ".fingerprint", m + "-*")):
            shutil.rmtree(p, ignore_errors=True)
    env = dict(os.environ)
    env.update({"LD_LIBRARY_PATH": os.path.join(fw.sysroot(), "lib"), "RAGC_RENAME_DIR": rdir, "RUSTFLAGS": "-Awarnings",
                "RUSTC_WORKSPACE_WRAPPER": fw.DRIVER, "CARGO_TARGET_DIR": tdir, "CARGO_NET_OFFLINE": "true", "CARGO_INCREMENTAL": "0"})
    env.pop("RAGC_FACTS_DIR", None)
    r = subprocess.run(["cargo", "+nightly", "check", "--offline", "--workspace"], cwd=dst, env=env, stdout=subprocess.PIPE, stderr=subprocess.STDOUT, text=True)
    if r.returncode != 0:
        print(r.stdout[-2000:]); return 2
    edits = {}
    nb = nskip = 0
    seen = set()
    nnoise = 0
    for fpath in sorted(glob.glob(os.path.join(rdir, "*.rename.json"))):
        doc = json.load(open(fpath))
        if invert:
            per_file = {}
            for x in doc.get("ifs", []):
                per_file.setdefault(x["file"], []).append(x)
            for fl, xs in per_file.items():
                for x in xs:
                    inner = any(y is not x and x["e"][0] <= y["e"][0] and y["e"][1] <= x["e"][1] for y in xs)
                    key = (fl, x["e"][0], "if")
                    if inner or key in seen:
                        continue
                    seen.add(key)
                    nnoise += 1
                    edits.setdefault(fl, []).append(("if", x))
        if noise:
            for s in doc.get("stmts", []):
                key = (s["file"], s["lo"], "noise")
                if key in seen:
                    continue
                seen.add(key)
                nnoise += 1
                text = "::std::hint::black_box(()); "
                if branchy and nnoise % branchy == 0:
                    text = "if ::std::hint::black_box(false) { eprintln!(\"noise {}\", %d); } " % nnoise
                edits.setdefault(s["file"], []).append((s["lo"], 0, "", text))
        for b in ([] if norename else doc["bindings"]):
            if not b["renamable"] or (b["param"] and not params):
                nskip += 1
                continue
            if only and not only.search(b["owner"]):
                continue
            nb += 1
            for s in b["sites"]:
                key = (s["file"], s["lo"])
                if key in seen:
                    continue            # lib and bin targets of one crate share files
                seen.add(key)
                new = b["name"] + suffix
                if s["shorthand"]:
                    new = "%s: %s" % (b["name"], new)
                edits.setdefault(s["file"], []).append((s["lo"], s["len"], b["name"], new))
    nfiles = 0
    for rel, es in edits.items():
        p = rel if os.path.isabs(rel) else os.path.join(dst, rel)
        if not p.startswith(dst):
            continue
        data = open(p, "rb").read()
        # rustc's positions refer to the normalised text (BOM removed, CRLF -> LF): map them back to raw offsets
        raw_of = []
        j = 3 if data.startswith(b"\xef\xbb\xbf") else 0
        while j < len(data):
            if data[j:j + 2] == b"\r\n":
                j += 1
                continue
            raw_of.append(j)
            j += 1
        raw_of.append(len(data))
        # at equal offsets the inserted statement (length 0) must end up in front of a renamed token
        if es and es[0][0] == "if":
            for _, x in sorted(es, key=lambda z: z[1]["e"][0], reverse=True):
                sl = lambda ab: data[raw_of[ab[0]]:raw_of[ab[1]]]
                new = b"if !(" + sl(x["c"]) + b") " + sl(x["l"]) + b" else " + sl(x["t"])
                data = data[:raw_of[x["e"][0]]] + new + data[raw_of[x["e"][1]]:]
            open(p, "wb").write(data)
            nfiles += 1
            continue
        for lo, ln, old, new in sorted(es, key=lambda x: (x[0], x[1]), reverse=True):
            lo = raw_of[lo]
            assert data[lo:lo + ln].decode() == old, (rel, lo, data[lo:lo + ln], old)
            data = data[:lo] + new.encode() + data[lo + ln:]
        open(p, "wb").write(data)
        nfiles += 1
    print("renamed %d bindings (%d left alone), inserted %d no-op statements, in %d files" % (nb, nskip, nnoise, nfiles))
    bad = 0
    for pid in ids:
        r = subprocess.run([os.path.join(VERIF, "check"), pid], env=dict(os.environ, VERIF_REPO=dst), cwd=VERIF, stdout=subprocess.PIPE, text=True)
        lines = [l for l in r.stdout.splitlines() if not l.startswith("VIOLATION")]
        print("[%s] exit=%d %s" % (pid, r.returncode, lines[0][:140] if lines and r.returncode != 1 else ""))
        if r.returncode != 0:
            bad += 1
            for l in lines[1:14]:
                print("    " + l[:230])
    if not keep:
        shutil.rmtree(SCRATCH, ignore_errors=True)
    print("checks with reports on the renamed tree: %d" % bad)
    return 1 if bad else 0


if __name__ == "__main__":
    sys.exit(main())
