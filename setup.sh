#!/bin/sh
# Build the fact extractor and pre-check the dependency graph (offline).
set -e
cd "$(dirname "$0")"
export CARGO_NET_OFFLINE=true
(cd engine/driver && cargo build --release --offline)
# warm the dependency target dirs and the fact cache for the current tree
python3 - <<'PY'
import sys, os
sys.path.insert(0, os.path.join(os.getcwd(), "engine", "py"))
import framework as fw
for c in ("dev",):
    print("facts:", fw.ensure_facts(c))
PY
